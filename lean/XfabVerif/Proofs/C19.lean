import XfabVerif.Model.Params
/-!
# C19 — parameter sets survive save/load and stay consistent under any call sequence

Theorems about the hand model `XfabVerif/Model/Params.lean` of `xfab/parameters.py` (tied to the implementation by
the correspondence run of `harness/props/c19.py`).  Core Lean only.

* `refines_dict`            the object refines the plain dictionary `Str → Option Val` stepped by `astep`
                            (one simulation lemma per call, lifted by induction over the history)
* `get_after_set`           last write wins (corollary used as a sanity check of the spec)
* `get_parameters_is_dict`  `get_parameters()` never holds a name twice; its entries are the pairs `(k, get k)`
* `varied_follow_varylist`  `get_variable_values()` never raises and follows varylist order
* `save_load_roundtrip`     `load (save m) = m` as a mapping, for names/values the file format can carry
* `classify_newline`, `load_coercion`, `load_lines`   what `loadparameters` + `dumbtypecheck` do to a file

`dumbtypecheck` never raises (since the repair of the `OverflowError` on integer literals beyond the float range, such a
literal is kept as the int), so `refines_dict` is unconditional.  `AssertionError` (set_varylist, set_variable_values)
leaves the object unchanged and is part of the specification `astep`.
-/
set_option linter.unusedVariables false
set_option linter.unusedSimpArgs false
open Params

namespace C19

/-! ### association lists -/

private theorem lookup_setKV {α : Type} (k kw : Str) (v : α) (l : List (Str × α)) :
    lookup k (setKV kw v l) = if kw = k then some v else lookup k l := by
  induction l with
  | nil => simp [setKV, lookup]
  | cons h t ih =>
    obtain ⟨k0, v0⟩ := h
    simp only [setKV, lookup]
    by_cases h1 : k0 = kw
    · subst h1; by_cases h2 : k0 = k <;> simp [lookup, h2]
    · by_cases h2 : k0 = k
      · subst h2
        have : ¬ kw = k0 := fun e => h1 e.symm
        simp [lookup, h1, this]
      · simp [lookup, h1, h2, ih]

private theorem lookup_map_val {α β : Type} (g : Str → α → β) (k : Str) (l : List (Str × α)) :
    lookup k (l.map fun kv => (kv.1, g kv.1 kv.2)) = (lookup k l).map (g k) := by
  induction l with
  | nil => simp [lookup]
  | cons h t ih =>
    obtain ⟨k0, v0⟩ := h
    by_cases h2 : k0 = k
    · subst h2; simp [lookup]
    · simp [lookup, h2, ih]

private theorem lookup_mem {α : Type} (k : Str) (v : α) (l : List (Str × α)) (h : lookup k l = some v) :
    (k, v) ∈ l := by
  induction l with
  | nil => simp [lookup] at h
  | cons hd t ih =>
    obtain ⟨k0, v0⟩ := hd
    by_cases h2 : k0 = k
    · subst h2; simp [lookup] at h; simp [h]
    · simp [lookup, h2] at h; simp [ih h]

private theorem lookup_isSome_iff {α : Type} (k : Str) (l : List (Str × α)) :
    (lookup k l).isSome = true ↔ k ∈ l.map Prod.fst := by
  induction l with
  | nil => simp [lookup]
  | cons hd t ih =>
    obtain ⟨k0, v0⟩ := hd
    by_cases h2 : k0 = k
    · subst h2; simp [lookup]
    · have : ¬ k = k0 := fun e => h2 e.symm
      simp [lookup, h2, ih, this]
/-! ### the abstract specification: a plain dictionary `Str → Option Val` -/

abbrev Map := Str → Option Val

/-- `d[k] = v` -/
def write (m : Map) (kw : Str) (v : Val) : Map := fun k => if kw = k then some v else m k

/-- successive assignments, in list order (`d.update`, `zip` loop) -/
def writeMany (m : Map) (kvs : List (Str × Val)) : Map := kvs.foldl (fun m kv => write m kv.1 kv.2) m

/-- `dumbtypecheck`: every value of the mapping is coerced -/
def coerceAll (m : Map) : Map := fun k => (m k).map coerceVal

/-- `update_yourself`: existing keys take the value of the attribute of the same name, if there is one -/
def copyAttrs (m : Map) (obj : List (Str × Val)) : Map := fun k =>
  (m k).map fun v => match lookup k obj with | some w => w | none => v

/-- the `[name, value]` assignment a line of a parameter file stands for; `none` = the line is skipped -/
def lineKV (line : Str) : Option (Str × Val) :=
  match splitSp line with
  | [name, value] => some (fixName name, Val.str value)
  | _ => none

/-- the assignments a file stands for, in file order -/
def loadPairs (text : Str) : List (Str × Val) := (readlines (univNl text)).filterMap lineKV

structure AState where
  map : Map
  varylist : List Str
  variableList : List Str

def ainit : AState := { map := fun _ => none, varylist := [], variableList := [] }

/-- the obvious specification of each call on the plain dictionary -/
def astep (a : AState) : Op → AState
  | .addpar name value vary canVary _ =>
    { map := write a.map name value
      varylist := if vary = true ∧ name ∉ a.varylist then a.varylist ++ [name] else a.varylist
      variableList := if canVary = true ∧ name ∉ a.variableList then a.variableList ++ [name] else a.variableList }
  | .set name value => { a with map := write a.map name value }
  | .setParameters d => { a with map := coerceAll (writeMany a.map d) }
  | .setVarylist vl =>
    if vl.all (fun v => (a.map v).isSome && decide (v ∈ a.variableList)) then { a with varylist := vl } else a
  | .setVariableValues vs =>
    if vs.length = a.varylist.length then { a with map := writeMany a.map (a.varylist.zip vs) } else a
  | .updateOther _ => a
  | .updateYourself obj => { a with map := copyAttrs a.map obj }
  | .load text => { a with map := coerceAll (writeMany a.map (loadPairs text)) }

def arun (a : AState) : List Op → AState
  | [] => a
  | o :: os => arun (astep a o) os

/-- the simulation relation -/
def R (s : State) (a : AState) : Prop :=
  (∀ k, lookup k s.params = a.map k) ∧ s.varylist = a.varylist ∧ s.variableList = a.variableList

private theorem sim_setMany (ps : List (Str × Val)) (m : Map) (kvs : List (Str × Val))
    (h : ∀ k, lookup k ps = m k) : ∀ k, lookup k (setMany ps kvs) = writeMany m kvs k := by
  induction kvs generalizing ps m with
  | nil => simpa [setMany, writeMany] using h
  | cons kv t ih =>
    intro k
    simp only [setMany, writeMany, List.foldl_cons]
    apply ih
    intro k'
    simp [lookup_setKV, write, h]

private theorem dumbList_lookup (k : Str) (l : List (Str × Val)) :
    lookup k (dumbList l) = (lookup k l).map coerceVal :=
  lookup_map_val (fun _ v => coerceVal v) k l

private theorem loadLines_eq (ps : List (Str × Val)) (text : Str) :
    loadLines ps text = setMany ps (loadPairs text) := by
  unfold loadLines loadPairs setMany
  generalize readlines (univNl text) = ls
  induction ls generalizing ps with
  | nil => rfl
  | cons l t ih =>
    simp only [List.foldl_cons, List.filterMap_cons]
    cases hl : lineKV l with
    | none =>
      have : loadLine ps l = ps := by
        unfold lineKV at hl; unfold loadLine
        split at hl <;> simp_all
      rw [this]; exact ih ps
    | some kv =>
      have : loadLine ps l = setKV kv.1 kv.2 ps := by
        unfold lineKV at hl; unfold loadLine
        split at hl
        · simp at hl; subst hl; simp_all
        · simp at hl
      rw [this]; simp only [List.foldl_cons]; exact ih _

/-! one-step simulation, one lemma per call -/

private theorem sim_addpar (s : State) (a : AState) (h : R s a) (name : Str) (value : Val) (vary canVary : Bool)
    (stepsize : Option Val) :
    R (step s (.addpar name value vary canVary stepsize)).1 (astep a (.addpar name value vary canVary stepsize)) := by
  obtain ⟨h1, h2, h3⟩ := h
  refine ⟨?_, ?_, ?_⟩
  · intro k; simp [step, addpar, astep, lookup_setKV, write, h1]
  · simp [step, addpar, astep, h2]
  · simp [step, addpar, astep, h3]

private theorem sim_set (s : State) (a : AState) (h : R s a) (name : Str) (value : Val) :
    R (step s (.set name value)).1 (astep a (.set name value)) := by
  obtain ⟨h1, h2, h3⟩ := h
  exact ⟨fun k => by simp [step, astep, lookup_setKV, write, h1], h2, h3⟩

private theorem sim_setParameters (s : State) (a : AState) (h : R s a) (d : List (Str × Val)) :
    R (step s (.setParameters d)).1 (astep a (.setParameters d)) := by
  obtain ⟨h1, h2, h3⟩ := h
  refine ⟨fun k => ?_, h2, h3⟩
  simp only [step, astep, coerceAll]
  rw [dumbList_lookup k _, sim_setMany _ _ _ h1]

private theorem sim_load (s : State) (a : AState) (h : R s a) (text : Str) :
    R (step s (.load text)).1 (astep a (.load text)) := by
  obtain ⟨h1, h2, h3⟩ := h
  refine ⟨fun k => ?_, h2, h3⟩
  simp only [step, astep, coerceAll]
  rw [dumbList_lookup k _, loadLines_eq, sim_setMany _ _ _ h1]

private theorem sim_setVarylist (s : State) (a : AState) (h : R s a) (vl : List Str) :
    R (step s (.setVarylist vl)).1 (astep a (.setVarylist vl)) := by
  obtain ⟨h1, h2, h3⟩ := h
  have : varylistOk s vl = vl.all (fun v => (a.map v).isSome && decide (v ∈ a.variableList)) := by
    simp [varylistOk, h1, h3]
  simp only [step, astep, this]
  split
  · exact ⟨h1, rfl, h3⟩
  · exact ⟨h1, h2, h3⟩

private theorem sim_setVariableValues (s : State) (a : AState) (h : R s a) (vs : List Val) :
    R (step s (.setVariableValues vs)).1 (astep a (.setVariableValues vs)) := by
  obtain ⟨h1, h2, h3⟩ := h
  by_cases hl : vs.length = s.varylist.length
  · have hl' : vs.length = a.varylist.length := h2 ▸ hl
    have e1 : (step s (.setVariableValues vs)).1 = { s with params := setMany s.params (s.varylist.zip vs) } := by
      simp only [step]; rw [if_pos hl]
    have e2 : astep a (.setVariableValues vs) = { a with map := writeMany a.map (a.varylist.zip vs) } := by
      simp only [astep]; rw [if_pos hl']
    rw [e1, e2]
    refine ⟨?_, h2, h3⟩
    rw [← h2]
    exact sim_setMany _ _ _ h1
  · have hl' : ¬ vs.length = a.varylist.length := h2 ▸ hl
    have e1 : (step s (.setVariableValues vs)).1 = s := by
      simp only [step]; rw [if_neg hl]
    have e2 : astep a (.setVariableValues vs) = a := by
      simp only [astep]; rw [if_neg hl']
    rw [e1, e2]
    exact ⟨h1, h2, h3⟩

private theorem sim_updateOther (s : State) (a : AState) (h : R s a) (obj : List (Str × Val)) :
    R (step s (.updateOther obj)).1 (astep a (.updateOther obj)) := h

private theorem sim_updateYourself (s : State) (a : AState) (h : R s a) (obj : List (Str × Val)) :
    R (step s (.updateYourself obj)).1 (astep a (.updateYourself obj)) := by
  obtain ⟨h1, h2, h3⟩ := h
  refine ⟨fun k => ?_, h2, h3⟩
  simp only [step, astep, copyAttrs, updateYourself]
  refine (lookup_map_val (fun k v => match lookup k obj with | some w => w | none => v) k s.params).trans ?_
  rw [h1]

private theorem sim_step (s : State) (a : AState) (h : R s a) (o : Op) :
    R (step s o).1 (astep a o) := by
  cases o with
  | addpar n v a b st => exact sim_addpar s _ h n v a b st
  | set n v => exact sim_set s _ h n v
  | setParameters d => exact sim_setParameters s _ h d
  | setVarylist vl => exact sim_setVarylist s _ h vl
  | setVariableValues vs => exact sim_setVariableValues s _ h vs
  | updateOther obj => exact sim_updateOther s _ h obj
  | updateYourself obj => exact sim_updateYourself s _ h obj
  | load t => exact sim_load s _ h t

private theorem sim_run (ops : List Op) (s : State) (a : AState) (h : R s a) : R (run s ops).1 (arun a ops) := by
  induction ops generalizing s a with
  | nil => exact h
  | cons o os ih => exact ih _ _ (sim_step s a h o)

/-- After ANY history of calls, `get` and `get_parameters` of the object are those of the plain dictionary stepped
    by `astep` (last write wins; `set_parameters`/`load` write, then coerce every string value), and varylist /
    variable_list agree. -/
theorem refines_dict (ops : List Op) :
    (∀ k, get (run init ops).1 k = (arun ainit ops).map k) ∧
    (∀ k, lookup k (getParameters (run init ops).1) = (arun ainit ops).map k) ∧
    (run init ops).1.varylist = (arun ainit ops).varylist ∧
    (run init ops).1.variableList = (arun ainit ops).variableList := by
  have h := sim_run ops init ainit ⟨fun k => rfl, rfl, rfl⟩
  exact ⟨h.1, h.1, h.2.1, h.2.2⟩

/-! ### keys never disappear; varylist ⊆ keys -/

private theorem isSome_setKV {α : Type} (k kw : Str) (v : α) (l : List (Str × α)) (h : (lookup k l).isSome = true) :
    (lookup k (setKV kw v l)).isSome = true := by
  rw [lookup_setKV]; split <;> simp [h]

private theorem isSome_setMany (k : Str) (ps kvs : List (Str × Val)) (h : (lookup k ps).isSome = true) :
    (lookup k (setMany ps kvs)).isSome = true := by
  induction kvs generalizing ps with
  | nil => exact h
  | cons kv t ih => exact ih _ (isSome_setKV k kv.1 kv.2 ps h)

private theorem isSome_dumbList (k : Str) (l : List (Str × Val)) :
    (lookup k (dumbList l)).isSome = (lookup k l).isSome := by
  rw [dumbList_lookup]; simp

private theorem isSome_step (k : Str) (s : State) (o : Op) (h : (lookup k s.params).isSome = true) :
    (lookup k (step s o).1.params).isSome = true := by
  cases o with
  | addpar n v a b st => exact isSome_setKV k n v _ h
  | set n v => exact isSome_setKV k n v _ h
  | setParameters d => simp only [step]; rw [isSome_dumbList]; exact isSome_setMany k _ _ h
  | setVarylist vl => simp only [step]; split <;> exact h
  | setVariableValues vs => simp only [step]; split; exact isSome_setMany k _ _ h; exact h
  | updateOther obj => exact h
  | updateYourself obj =>
    simp only [step, updateYourself]
    have e := lookup_map_val (fun k v => match lookup k obj with | some w => w | none => v) k s.params
    refine (congrArg Option.isSome e).trans ?_
    simpa using h
  | load t => simp only [step]; rw [isSome_dumbList, loadLines_eq]; exact isSome_setMany k _ _ h

/-- every name of the varylist is a key -/
def Inv (s : State) : Prop := ∀ k ∈ s.varylist, (lookup k s.params).isSome = true

private theorem inv_step (s : State) (o : Op) (h : Inv s) : Inv (step s o).1 := by
  cases o with
  | addpar n v a b st =>
    intro k hk
    simp only [step, addpar] at hk ⊢
    by_cases hkn : n = k
    · simp [lookup_setKV, hkn]
    · apply isSome_setKV
      apply h
      split at hk
      · simp at hk; rcases hk with hk | hk
        · exact hk
        · exact absurd hk.symm hkn
      · exact hk
  | setVarylist vl =>
    simp only [step]
    split
    · rename_i hok
      intro k hk
      simp only [varylistOk, List.all_eq_true, Bool.and_eq_true] at hok
      exact (hok k hk).1
    · exact h
  | set n v => exact fun k hk => isSome_step k s _ (h k hk)
  | setParameters d => exact fun k hk => isSome_step k s (.setParameters d) (h k (by simpa [step] using hk))
  | setVariableValues vs =>
    intro k hk
    apply isSome_step k s (.setVariableValues vs) (h k _)
    simp only [step] at hk; split at hk <;> exact hk
  | updateOther obj => exact h
  | updateYourself obj => exact fun k hk => isSome_step k s (.updateYourself obj) (h k (by simpa [step] using hk))
  | load t => exact fun k hk => isSome_step k s (.load t) (h k (by simpa [step] using hk))

private theorem inv_run (ops : List Op) (s : State) (h : Inv s) : Inv (run s ops).1 := by
  induction ops generalizing s with
  | nil => exact h
  | cons o os ih => exact ih _ (inv_step s o h)

private theorem getAll_spec (ps : List (Str × Val)) (l : List Str) (h : ∀ k ∈ l, (lookup k ps).isSome = true) :
    ∃ vs, getAll ps l = some vs ∧ vs.map some = l.map (fun k => lookup k ps) := by
  induction l with
  | nil => exact ⟨[], rfl, rfl⟩
  | cons k t ih =>
    obtain ⟨vs, h1, h2⟩ := ih (fun k' hk' => h k' (List.mem_cons_of_mem _ hk'))
    have hk := h k (List.mem_cons_self ..)
    cases hv : lookup k ps with
    | none => simp [hv] at hk
    | some v => exact ⟨v :: vs, by simp [getAll, hv, h1], by simp [hv, h2]⟩

/-- After ANY history (even one in which calls raised), `get_variable_values()` does not raise and is the list
    of current values of the names of `varylist`, in varylist order. -/
theorem varied_follow_varylist (ops : List Op) :
    ∃ vs, getVariableValues (run init ops).1 = some vs ∧
      vs.map some = (run init ops).1.varylist.map (fun k => get (run init ops).1 k) :=
  getAll_spec _ _ (inv_run ops init (by intro k hk; simp [init] at hk))

private theorem run_append (s : State) (xs ys : List Op) :
    (run s (xs ++ ys)).1 = (run (run s xs).1 ys).1 := by
  induction xs generalizing s with
  | nil => rfl
  | cons o os ih => simp only [List.cons_append, run]; exact ih _

/-- Last write wins: directly after `set(k, v)` (or `addpar` of `k` with value `v`), `get(k)` is `v`. -/
theorem get_after_set (ops : List Op) (k : Str) (v : Val) (vary canVary : Bool) (stp : Option Val) :
    get (run init (ops ++ [.set k v])).1 k = some v ∧
    get (run init (ops ++ [.addpar k v vary canVary stp])).1 k = some v := by
  constructor <;> rw [run_append] <;> simp [run, step, addpar, Params.get, lookup_setKV]
/-! ### strip, underscores, decimal digits -/

private theorem rstrip_append_one (p : Char → Bool) (l : Str) (c : Char) (hc : p c = true) :
    rstrip p (l ++ [c]) = rstrip p l := by
  simp [rstrip, List.dropWhile_cons, hc]

private theorem strip_append_one (p : Char → Bool) (l : Str) (c : Char) (hc : p c = true) :
    strip p (l ++ [c]) = strip p l := by
  induction l with
  | nil => simp [strip, rstrip, List.dropWhile_cons, hc]
  | cons a t ih =>
    cases ha : p a with
    | true =>
      simp only [strip, List.cons_append, List.dropWhile_cons, ha, if_true] at ih ⊢
      exact ih
    | false =>
      simp only [strip, List.cons_append, List.dropWhile_cons, ha]
      exact rstrip_append_one p (a :: t) c hc

private theorem dropWhile_none (p : Char → Bool) (l : Str) (h : ∀ c ∈ l, p c = false) : l.dropWhile p = l := by
  cases l with
  | nil => rfl
  | cons a t => simp [List.dropWhile_cons, h a (List.mem_cons_self ..)]

private theorem strip_id (p : Char → Bool) (l : Str) (h : ∀ c ∈ l, p c = false) : strip p l = l := by
  unfold strip rstrip
  rw [dropWhile_none p l h, dropWhile_none p l.reverse (fun c hc => h c (List.mem_reverse.mp hc))]
  exact List.reverse_reverse l

private theorem takeWhile_all (p : Char → Bool) (l : Str) (h : ∀ c ∈ l, p c = true) : l.takeWhile p = l := by
  induction l with
  | nil => rfl
  | cons a t ih =>
    simp [List.takeWhile_cons, h a (List.mem_cons_self ..), ih (fun c hc => h c (List.mem_cons_of_mem _ hc))]

private theorem dropWhile_all (p : Char → Bool) (l : Str) (h : ∀ c ∈ l, p c = true) : l.dropWhile p = [] := by
  induction l with
  | nil => rfl
  | cons a t ih =>
    simp [List.dropWhile_cons, h a (List.mem_cons_self ..), ih (fun c hc => h c (List.mem_cons_of_mem _ hc))]

private theorem deUnderscoreAux_id (l : Str) (prev : Char) (hp : prev ≠ '_') (h : '_' ∉ l) :
    deUnderscoreAux prev l = some l := by
  induction l generalizing prev with
  | nil => simp [deUnderscoreAux, hp]
  | cons c t ih =>
    have hc : c ≠ '_' := fun e => h (e ▸ List.mem_cons_self ..)
    have ht : '_' ∉ t := fun e => h (List.mem_cons_of_mem _ e)
    simp [deUnderscoreAux, hc, hp, ih c hc ht]

private theorem deUnderscore_id (l : Str) (h : '_' ∉ l) : deUnderscore l = some l :=
  deUnderscoreAux_id l _ (by decide) h

private theorem digitChar_spec : ∀ d, d < 10 → isDigit (digitChar d) = true ∧ digitVal (digitChar d) = d := by
  decide

private theorem digit_ne (c : Char) (h : isDigit c = true) :
    c ≠ '_' ∧ c ≠ '-' ∧ c ≠ '+' ∧ isStrSpace c = false := by
  refine ⟨?_, ?_, ?_, ?_⟩
  · intro e; subst e; revert h; decide
  · intro e; subst e; revert h; decide
  · intro e; subst e; revert h; decide
  · simp only [isDigit, Bool.and_eq_true, decide_eq_true_eq] at h
    have hne : ∀ d : Char, d.toNat < 48 → (c = d) = False := by
      intro d hd; simp only [eq_iff_iff, iff_false]; intro e; subst e; omega
    simp [isStrSpace, isFloatSpace, hne]

private theorem parseNat_append_one (xs : Str) (c : Char) : parseNat (xs ++ [c]) = parseNat xs * 10 + digitVal c := by
  simp [parseNat, List.foldl_append]

private theorem natDigitsAux_spec (fuel n : Nat) (acc : Str) (h : n < fuel) :
    ∃ xs, natDigitsAux fuel n acc = xs ++ acc ∧ xs ≠ [] ∧ (∀ c ∈ xs, isDigit c = true) ∧ parseNat xs = n := by
  induction fuel generalizing n acc with
  | zero => omega
  | succ f ih =>
    unfold natDigitsAux
    by_cases h10 : n < 10
    · refine ⟨[digitChar n], by simp [h10], by simp, ?_, ?_⟩
      · intro c hc; simp at hc; subst hc; exact (digitChar_spec n h10).1
      · simp [parseNat, (digitChar_spec n h10).2]
    · obtain ⟨xs, e1, e2, e3, e4⟩ := ih (n / 10) (digitChar (n % 10) :: acc) (by omega)
      have hd := digitChar_spec (n % 10) (by omega)
      refine ⟨xs ++ [digitChar (n % 10)], by simp [h10, e1], by simp, ?_, ?_⟩
      · intro c hc
        rcases List.mem_append.mp hc with hc | hc
        · exact e3 c hc
        · simp at hc; subst hc; exact hd.1
      · rw [parseNat_append_one, e4, hd.2]; omega

private theorem natDigits_spec (n : Nat) :
    natDigits n ≠ [] ∧ (∀ c ∈ natDigits n, isDigit c = true) ∧ parseNat (natDigits n) = n := by
  obtain ⟨xs, e1, e2, e3, e4⟩ := natDigitsAux_spec (n + 1) n [] (by omega)
  have : natDigits n = xs := by simp [natDigits, e1]
  rw [this]; exact ⟨e2, e3, e4⟩

private theorem floatBody_digits (l : Str) (h0 : l ≠ []) (h : ∀ c ∈ l, isDigit c = true) : floatBody l = true := by
  simp [floatBody, takeWhile_all _ l h, dropWhile_all _ l h, h0]

private theorem splitSign_digit (c : Char) (t : Str) (h : isDigit c = true) : splitSign (c :: t) = (false, c :: t) := by
  have := digit_ne c h
  simp [splitSign, this.2.1, this.2.2.1]

/-- the characters of `str(n)` -/
private theorem showInt_chars (n : Int) : ∀ c ∈ showInt n, c = '-' ∨ isDigit c = true := by
  cases n with
  | ofNat m => intro c hc; exact Or.inr ((natDigits_spec m).2.1 c hc)
  | negSucc m =>
    intro c hc
    simp only [showInt, List.mem_cons] at hc
    rcases hc with hc | hc
    · exact Or.inl hc
    · exact Or.inr ((natDigits_spec (m + 1)).2.1 c hc)

private theorem showInt_noSpace (n : Int) : ∀ c ∈ showInt n, isStrSpace c = false := by
  intro c hc
  rcases showInt_chars n c hc with e | e
  · subst e; decide
  · exact (digit_ne c e).2.2.2

private theorem isFloatSpace_of_not_strSpace (c : Char) (h : isStrSpace c = false) : isFloatSpace c = false := by
  simp only [isStrSpace, Bool.or_eq_false_iff] at h
  exact h.1.1.1.1

private theorem showInt_cores (n : Int) :
    intCore (showInt n) = some n ∧ floatCore (showInt n) = some (showInt n) := by
  have hu : '_' ∉ showInt n := by
    intro hm
    rcases showInt_chars n _ hm with e | e
    · revert e; decide
    · exact (digit_ne _ e).1 rfl
  cases n with
  | ofNat m =>
    obtain ⟨h0, hd, hp⟩ := natDigits_spec m
    have hs : showInt (Int.ofNat m) = natDigits m := rfl
    rw [hs] at hu ⊢
    cases hl : natDigits m with
    | nil => exact absurd hl h0
    | cons c t =>
      rw [hl] at hd hp hu
      have hc := hd c (List.mem_cons_self ..)
      constructor
      · simp only [intCore, deUnderscore_id _ hu, splitSign_digit c t hc]
        have : (c :: t).all isDigit = true := List.all_eq_true.mpr hd
        simp [this, hp]
      · simp only [floatCore, deUnderscore_id _ hu, splitSign_digit c t hc]
        simp [floatBody_digits (c :: t) (by simp) hd]
  | negSucc m =>
    obtain ⟨h0, hd, hp⟩ := natDigits_spec (m + 1)
    have hs : showInt (Int.negSucc m) = '-' :: natDigits (m + 1) := rfl
    rw [hs] at hu ⊢
    constructor
    · simp only [intCore, deUnderscore_id _ hu, splitSign]
      have : (natDigits (m + 1)).all isDigit = true := List.all_eq_true.mpr hd
      simp [this, hp, h0, Int.negSucc_eq]
    · simp only [floatCore, deUnderscore_id _ hu, splitSign]
      simp [floatBody_digits _ h0 hd]

/-- `int(str(n)) == n` and `float(str(n))` succeeds, hence `dumbtypecheck` gives back the int, whatever its size -/
private theorem classify_showInt (n : Int) : classify (showInt n) = .int n := by
  have hs : strip isFloatSpace (showInt n) = showInt n :=
    strip_id _ _ (fun c hc => isFloatSpace_of_not_strSpace c (showInt_noSpace n c hc))
  simp [classify, pyFloat, pyInt, hs, (showInt_cores n).1, (showInt_cores n).2]

/-- a trailing newline (the one `readlines` leaves on the value) does not change the classification -/
theorem classify_newline (s : Str) : classify (s ++ ['\n']) = classify s := by
  simp [classify, pyFloat, pyInt, strip_append_one isFloatSpace s '\n' (by decide),
    strip_append_one isStrSpace s '\n' (by decide)]
/-! ### save → load -/

/-- no whitespace character (`str.isspace`) at all -/
def NoSpace (l : Str) : Prop := ∀ c ∈ l, isStrSpace c = false

/-- a name that the file format can carry: no blank, no line break (`\n`, and `\r` because the file is read with
    universal newlines), no hyphen -/
def GoodKey (k : Str) : Prop := ∀ c ∈ k, c ≠ ' ' ∧ c ≠ '\n' ∧ c ≠ '\r' ∧ c ≠ '-'

/-- a value that the file format can carry.
    * int: every int, of any size; `int(str(n)) = n` is PROVED for the model's recogniser, not assumed.
    * float token `t` (= `repr(x)`): HYPOTHESIS = CPython's repr round-trip guarantee, in the token model:
      `repr(x)` contains no whitespace, is accepted by `float()` giving back the same float (`classify t = flt t`
      says: float() accepts it with canonical token `t` itself, and int() rejects it).
    * string: free of whitespace and not accepted by `float()` ("non-numeric"). -/
def GoodVal : Val → Prop
  | .int _ => True
  | .flt t => NoSpace t ∧ classify t = .flt t
  | .str s => NoSpace s ∧ pyFloat s = none

private theorem noSpace_not (l : Str) (h : NoSpace l) : ' ' ∉ l ∧ '\n' ∉ l ∧ '\r' ∉ l := by
  refine ⟨fun m => ?_, fun m => ?_, fun m => ?_⟩ <;> · have := h _ m; revert this; decide

private theorem showVal_noSpace (v : Val) (h : GoodVal v) : NoSpace (showVal v) := by
  cases v with
  | int n => exact showInt_noSpace n
  | flt t => exact h.1
  | str s => exact h.1

private theorem coerce_show (v : Val) (h : GoodVal v) : coerceVal (.str (showVal v ++ ['\n'])) = v := by
  cases v with
  | int n => simp [coerceVal, classify_newline, showVal, classify_showInt n]
  | flt t => simp [coerceVal, classify_newline, showVal, h.2]
  | str s =>
    have : classify s = .text s := by
      simp [classify, h.2, strip_id isStrSpace s h.1]
    simp [coerceVal, classify_newline, showVal, this]

private theorem univNl_id (l : Str) (h : '\r' ∉ l) : univNl l = l := by
  unfold univNl
  induction l with
  | nil => rfl
  | cons c t ih =>
    have hc : c ≠ '\r' := fun e => h (e ▸ List.mem_cons_self ..)
    simp [univNlAux, hc, ih (fun m => h (List.mem_cons_of_mem _ m))]

private theorem readlines_line (l rest : Str) (h : '\n' ∉ l) :
    readlines (l ++ '\n' :: rest) = (l ++ ['\n']) :: readlines rest := by
  induction l with
  | nil => simp [readlines]
  | cons c t ih =>
    have hc : c ≠ '\n' := fun e => h (e ▸ List.mem_cons_self ..)
    simp [readlines, hc, ih (fun m => h (List.mem_cons_of_mem _ m))]

private theorem splitSp_nosp (v : Str) (h : ' ' ∉ v) : splitSp v = [v] := by
  induction v with
  | nil => rfl
  | cons c t ih =>
    have hc : c ≠ ' ' := fun e => h (e ▸ List.mem_cons_self ..)
    simp [splitSp, hc, ih (fun m => h (List.mem_cons_of_mem _ m))]

private theorem splitSp_kv (k r : Str) (h : ' ' ∉ k) : splitSp (k ++ ' ' :: r) = k :: splitSp r := by
  induction k with
  | nil => simp [splitSp]
  | cons c t ih =>
    have hc : c ≠ ' ' := fun e => h (e ▸ List.mem_cons_self ..)
    simp [splitSp, hc, ih (fun m => h (List.mem_cons_of_mem _ m))]

private theorem fixName_id (k : Str) (h : '-' ∉ k) : fixName k = k := by
  induction k with
  | nil => rfl
  | cons c t ih =>
    have hc : c ≠ '-' := fun e => h (e ▸ List.mem_cons_self ..)
    have := ih (fun m => h (List.mem_cons_of_mem _ m))
    simp only [fixName] at this ⊢
    simp [hc, this]

/-- the value string that `loadparameters` assigns for a saved value, before `dumbtypecheck` -/
private def G (v : Val) : Val := .str (showVal v ++ ['\n'])

private theorem lineKV_render (kv : Str × Val) (hk : GoodKey kv.1) (hv : GoodVal kv.2) :
    lineKV (renderLine kv) = some (kv.1, G kv.2) := by
  have h1 : ' ' ∉ kv.1 := fun m => (hk _ m).1 rfl
  have h2 : '-' ∉ kv.1 := fun m => (hk _ m).2.2.2 rfl
  have h3 : ' ' ∉ showVal kv.2 ++ ['\n'] := by
    intro m
    rcases List.mem_append.mp m with m | m
    · exact (noSpace_not _ (showVal_noSpace _ hv)).1 m
    · revert m; decide
  simp [lineKV, renderLine, splitSp_kv _ _ h1, splitSp_nosp _ h3, fixName_id _ h2, G]

private theorem mem_renderLines (c : Char) (kvs : List (Str × Val)) (h : c ∈ renderLines kvs) :
    ∃ kv ∈ kvs, c ∈ renderLine kv := by
  induction kvs with
  | nil => simp [renderLines] at h
  | cons kv t ih =>
    simp only [renderLines, List.mem_append] at h
    rcases h with h | h
    · exact ⟨kv, List.mem_cons_self .., h⟩
    · obtain ⟨x, hx, hc⟩ := ih h
      exact ⟨x, List.mem_cons_of_mem _ hx, hc⟩

private theorem readlines_render (kvs : List (Str × Val))
    (h : ∀ kv ∈ kvs, GoodKey kv.1 ∧ GoodVal kv.2) :
    readlines (univNl (renderLines kvs)) = kvs.map renderLine := by
  have hr : '\r' ∉ renderLines kvs := by
    intro m
    obtain ⟨kv, hkv, hc⟩ := mem_renderLines _ _ m
    simp only [renderLine, List.mem_append, List.mem_cons] at hc
    rcases hc with hc | hc | hc | hc
    · exact ((h kv hkv).1 _ hc).2.2.1 rfl
    · revert hc; decide
    · exact (noSpace_not _ (showVal_noSpace _ (h kv hkv).2)).2.2 hc
    · revert hc; simp
  rw [univNl_id _ hr]
  clear hr
  induction kvs with
  | nil => rfl
  | cons kv t ih =>
    have hn : '\n' ∉ kv.1 ++ ' ' :: showVal kv.2 := by
      intro m
      simp only [List.mem_append, List.mem_cons] at m
      rcases m with m | m | m
      · exact ((h kv (List.mem_cons_self ..)).1 _ m).2.1 rfl
      · revert m; decide
      · exact (noSpace_not _ (showVal_noSpace _ (h kv (List.mem_cons_self ..)).2)).2.1 m
    have e : renderLines (kv :: t) = (kv.1 ++ ' ' :: showVal kv.2) ++ '\n' :: renderLines t := by
      simp [renderLines, renderLine]
    rw [e, readlines_line _ _ hn, ih (fun x hx => h x (List.mem_cons_of_mem _ hx))]
    simp [renderLine]

private theorem loadPairs_render (kvs : List (Str × Val))
    (h : ∀ kv ∈ kvs, GoodKey kv.1 ∧ GoodVal kv.2) :
    loadPairs (renderLines kvs) = kvs.map (fun kv => (kv.1, G kv.2)) := by
  unfold loadPairs
  rw [readlines_render kvs h]
  induction kvs with
  | nil => rfl
  | cons kv t ih =>
    have := h kv (List.mem_cons_self ..)
    simp only [List.map_cons, List.filterMap_cons, lineKV_render kv this.1 this.2]
    rw [ih (fun x hx => h x (List.mem_cons_of_mem _ hx))]

private theorem mem_insertSorted (x k : Str) (l : List Str) : x ∈ insertSorted k l ↔ x = k ∨ x ∈ l := by
  induction l with
  | nil => simp [insertSorted]
  | cons hd t ih =>
    simp only [insertSorted]
    split
    · simp
    · simp only [List.mem_cons, ih]
      constructor
      · rintro (h | h | h) <;> simp [h]
      · rintro (h | h | h) <;> simp [h]

private theorem mem_sortKeys (x : Str) (l : List Str) : x ∈ sortKeys l ↔ x ∈ l := by
  induction l with
  | nil => simp [sortKeys]
  | cons hd t ih => simp [sortKeys, mem_insertSorted, ih]

private theorem mem_saveLines (kv : Str × Val) (ps : List (Str × Val)) :
    kv ∈ saveLines ps ↔ lookup kv.1 ps = some kv.2 := by
  simp only [saveLines, List.mem_filterMap, mem_sortKeys]
  constructor
  · rintro ⟨k, hk, he⟩
    cases hl : lookup k ps with
    | none => simp [hl] at he
    | some v => simp [hl] at he; subst he; exact hl
  · intro h
    refine ⟨kv.1, (lookup_isSome_iff _ _).mp (by simp [h]), by simp [h]⟩

/-- successive assignments of pairs that all agree with one function `f`: the result reads `f` on the assigned keys -/
private theorem lookup_setMany_fun (f : Str → Option Val) (k : Str) (ps kvs : List (Str × Val))
    (h : ∀ kv ∈ kvs, f kv.1 = some kv.2) :
    lookup k (setMany ps kvs) = if k ∈ kvs.map Prod.fst then f k else lookup k ps := by
  induction kvs generalizing ps with
  | nil => simp [setMany]
  | cons kv t ih =>
    have h0 := h kv (List.mem_cons_self ..)
    have e : setMany ps (kv :: t) = setMany (setKV kv.1 kv.2 ps) t := rfl
    rw [e, ih _ (fun x hx => h x (List.mem_cons_of_mem _ hx)), lookup_setKV]
    by_cases h1 : k ∈ t.map Prod.fst
    · simp [h1]
    · by_cases h2 : kv.1 = k
      · subst h2; simp [h0]
      · have : ¬ k = kv.1 := fun e => h2 e.symm
        simp [h1, h2, this]

/-- Saving an object whose names are free of blank / line break / hyphen and whose values are ints (of any size),
    float tokens with the repr round-trip property, or whitespace-free non-numeric strings,
    and loading the file into a fresh object, raises nothing and gives back the same name → value mapping. -/
theorem save_load_roundtrip (st : State)
    (hk : ∀ kv ∈ st.params, GoodKey kv.1) (hv : ∀ kv ∈ st.params, GoodVal kv.2) :
    (step init (.load (saveText st))).2 = none ∧
    ∀ k, get (step init (.load (saveText st))).1 k = get st k := by
  have hgood : ∀ kv ∈ saveLines st.params, GoodKey kv.1 ∧ GoodVal kv.2 := by
    intro kv hkv
    have := lookup_mem _ _ _ ((mem_saveLines kv _).mp hkv)
    exact ⟨hk _ this, hv _ this⟩
  have hl : loadLines init.params (saveText st) = setMany [] ((saveLines st.params).map fun kv => (kv.1, G kv.2)) := by
    rw [loadLines_eq, saveText, loadPairs_render _ hgood]; rfl
  refine ⟨rfl, fun k => ?_⟩
  simp only [step, Params.get, hl]
  rw [dumbList_lookup k _,
    lookup_setMany_fun (fun k => (lookup k st.params).map G) k []]
  · cases hlk : lookup k st.params with
    | none =>
      have : ¬ k ∈ List.map Prod.fst (List.map (fun kv => (kv.fst, G kv.snd)) (saveLines st.params)) := by
        intro m
        simp only [List.map_map, List.mem_map, Function.comp] at m
        obtain ⟨kv, hkv, e⟩ := m
        have := (mem_saveLines kv _).mp hkv
        rw [e, hlk] at this; cases this
      simp [this, lookup]
    | some v =>
      have hm : (k, v) ∈ saveLines st.params := (mem_saveLines (k, v) _).mpr hlk
      have : k ∈ List.map Prod.fst (List.map (fun kv => (kv.fst, G kv.snd)) (saveLines st.params)) := by
        simp only [List.map_map, List.mem_map, Function.comp]
        exact ⟨(k, v), hm, rfl⟩
      rw [if_pos this]
      simp [hlk, G, coerce_show v (hgood _ hm).2]
  · intro kv hkv
    obtain ⟨x, hx, rfl⟩ := List.mem_map.mp hkv
    simp [(mem_saveLines x _).mp hx]
/-! ### coercion on load -/

private theorem float_of_int (s : Str) (n : Int) (h : intCore s = some n) : ∃ tok, floatCore s = some tok := by
  unfold intCore at h; unfold floatCore
  cases hd : deUnderscore s with
  | none => simp [hd] at h
  | some u =>
    simp only [hd] at h ⊢
    split at h
    · rename_i hc
      exact ⟨u, by simp [floatBody_digits _ hc.1 (List.all_eq_true.mp hc.2)]⟩
    · simp at h

/-- `dumbtypecheck` on one string value `s` (on load: the text after the blank, including its line break):
    int whenever `int(s)` succeeds (whatever the size of the integer), else float when `float(s)` succeeds, else the
    string stripped of surrounding whitespace; ints and floats are left alone. -/
theorem load_coercion (s : Str) :
    (∀ n, pyInt s = some n → coerceVal (.str s) = .int n) ∧
    (∀ tok, pyInt s = none → pyFloat s = some tok → coerceVal (.str s) = .flt tok) ∧
    (pyFloat s = none → coerceVal (.str s) = .str (strip isStrSpace s)) ∧
    (∀ v, (∀ t, v ≠ Val.str t) → coerceVal v = v) := by
  refine ⟨fun n hi => ?_, fun tok hi hf => ?_, fun hf => ?_, fun v hv => ?_⟩
  · obtain ⟨tok, ht⟩ := float_of_int _ n hi
    simp [coerceVal, classify, pyFloat, ht, hi]
  · simp [coerceVal, classify, hf, hi]
  · simp [coerceVal, classify, hf]
  · cases v with
    | int n => rfl
    | flt t => rfl
    | str t => exact absurd rfl (hv t)

/-- `loadparameters`: the file is read with universal newlines; every line that `split(" ")` cuts into exactly
    two fields assigns `name.replace("-","_") := value` (a string, line break included), in file order; all other
    lines are skipped; then `dumbtypecheck` runs over the whole mapping. Names never keep a hyphen. -/
theorem load_lines (st : State) (text : Str) :
    (step st (.load text)).1.params = dumbList (setMany st.params (loadPairs text)) ∧
    (∀ line name value, splitSp line = [name, value] → lineKV line = some (fixName name, .str value)) ∧
    (∀ line, (splitSp line).length ≠ 2 → lineKV line = none) ∧
    (∀ name, '-' ∉ fixName name ∧ (fixName name).length = name.length ∧ ('-' ∉ name → fixName name = name)) := by
  refine ⟨by simp [step, loadLines_eq], fun line name value h => by simp [lineKV, h], fun line h => ?_, fun name => ?_⟩
  · unfold lineKV
    split
    · rename_i e; simp [e] at h
    · rfl
  · refine ⟨fun m => ?_, by simp [fixName], fixName_id name⟩
    simp only [fixName, List.mem_map] at m
    obtain ⟨c, _, hc⟩ := m
    split at hc
    · revert hc; decide
    · rename_i hne; exact hne hc

/-! ### concrete instances (evaluated by the kernel) -/

/- the recogniser on the strings named in the property -/
example : classify ['1', '2'] = .int 12 := by decide +kernel
example : classify [' ', '3', '.', '5', ' '] = .flt ['3', '.', '5'] := by decide
example : classify ['1', 'e', '5', '\n'] = .flt ['1', 'e', '5'] := by decide
example : classify ['0', 'x', '1', '0'] = .text ['0', 'x', '1', '0'] := by decide
example : classify ['1', '_', '0', '0', '0'] = .int 1000 := by decide +kernel
example : classify ['1', '_', '_', '0'] = .text ['1', '_', '_', '0'] := by decide
example : classify ['-', 'I', 'n', 'F'] = .flt ['-', 'I', 'n', 'F'] := by decide
example : classify ['n', 'a', 'n'] = .flt ['n', 'a', 'n'] := by decide
example : classify ['-', '0', '.', '0'] = .flt ['-', '0', '.', '0'] := by decide
example : classify ['1', '2', 'a', 'b', 'c', ' '] = .text ['1', '2', 'a', 'b', 'c'] := by decide
example : classify [] = .text [] := by decide
example : classify ['\x1c', '1'] = .text ['1'] := by decide
example : classify ['-', '0', '7', '\r', '\n'] = .int (-7) := by decide +kernel
example : classify ['1', '.', 'e', '5'] = .flt ['1', '.', 'e', '5'] := by decide
example : classify ['.', 'e', '5'] = .text ['.', 'e', '5'] := by decide
example : showInt (-9007199254740993) = ['-', '9', '0', '0', '7', '1', '9', '9', '2', '5', '4', '7', '4', '0', '9', '9', '3'] := by
  decide

/-- a non-trivial history: addpar with vary flags, a numeric-looking string that `set_parameters` coerces,
    a rejected and an accepted `set_varylist`, `set_variable_values`, `update_yourself`, and a file with a hyphenated
    name, a malformed line and CRLF -/
def demoOps : List Op :=
  [ .addpar ['a'] (.int 5) true true none,
    .addpar ['b'] (.str [' ', '3', '.', '5', ' ']) true false (some (.int 2)),
    .set ['c'] (.flt ['1', '.', '5']),
    .setParameters [(['e'], .str ['1', '_', '0', '0', '0'])],
    .setVarylist [['b']],
    .setVarylist [['a']],
    .setVariableValues [.int 1, .int 2],
    .setVariableValues [.int 9],
    .updateYourself [(['c'], .str ['x']), (['q'], .int 0)],
    .load ['a', '-', 'b', ' ', '1', '2', '3', '\n', 'b', 'a', 'd', '\n', 'z', ' ', 'i', 'n', 'f', '\r', '\n', 'q', ' ', '~'] ]

example : (run init demoOps).1.params =
    [(['a'], .int 9), (['b'], .flt ['3', '.', '5']), (['c'], .str ['x']), (['e'], .int 1000),
     (['a', '_', 'b'], .int 123), (['z'], .flt ['i', 'n', 'f']), (['q'], .str ['~'])] := by decide +kernel

example : (run init demoOps).2 =
    [none, none, none, none, some .assertion, none, some .assertion, none, none, none] := by decide

example : getVariableValues (run init demoOps).1 = some [.int 9] := by decide

/-- `refines_dict` on the demo history -/
example : ∀ k, get (run init demoOps).1 k = (arun ainit demoOps).map k := (refines_dict demoOps).1

/-- integer literals beyond 2^53 and beyond the float range stay ints -/
example : classify (showInt (2 ^ 53 + 1)) = .int 9007199254740993 := by decide +kernel
example : classify (showInt (2 ^ 1024)) = .int (2 ^ 1024) := by decide +kernel
example : (run init [.set ['a'] (.str (showInt (-(10 ^ 400)))), .setParameters []]).1.params
    = [(['a'], .int (-(10 ^ 400)))] := by decide +kernel

/-- the hypotheses of `save_load_roundtrip` are satisfiable on a state with all three value kinds -/
example :
    let st : State := { params := [(['n'], .int (-12)), (['x', '_', '1'], .flt ['1', 'e', '-', '0', '5']),
                                   (['s'], .str ['P', '2', '1', '/', 'c']), (['e'], .str [])] }
    (∀ kv ∈ st.params, GoodKey kv.1) ∧ (∀ kv ∈ st.params, GoodVal kv.2) ∧
    saveText st = ['e', ' ', '\n', 'n', ' ', '-', '1', '2', '\n', 's', ' ', 'P', '2', '1', '/', 'c', '\n',
                   'x', '_', '1', ' ', '1', 'e', '-', '0', '5', '\n'] := by
  refine ⟨?_, ?_, by decide⟩
  · simp [GoodKey]
  · simp only [List.mem_cons, List.not_mem_nil, or_false]
    rintro kv (rfl | rfl | rfl | rfl)
    · trivial
    · exact ⟨by simp [NoSpace]; decide, by decide⟩
    · exact ⟨by simp [NoSpace]; decide, by decide⟩
    · exact ⟨by simp [NoSpace], by decide⟩
/-! ### the association list is a genuine dictionary: no name occurs twice -/

private theorem keys_setKV {α : Type} (k : Str) (v : α) (l : List (Str × α)) :
    (setKV k v l).map Prod.fst = if k ∈ l.map Prod.fst then l.map Prod.fst else l.map Prod.fst ++ [k] := by
  induction l with
  | nil => simp [setKV]
  | cons hd t ih =>
    obtain ⟨k0, v0⟩ := hd
    by_cases h : k0 = k
    · subst h; simp [setKV]
    · have h' : ¬ k = k0 := fun e => h e.symm
      simp only [setKV, h, if_false, List.map_cons, ih, List.mem_cons, h', false_or]
      split <;> simp

private theorem nodup_setKV {α : Type} (k : Str) (v : α) (l : List (Str × α)) (h : (l.map Prod.fst).Nodup) :
    ((setKV k v l).map Prod.fst).Nodup := by
  rw [keys_setKV]
  split
  · exact h
  · rename_i hk
    rw [List.nodup_append]
    exact ⟨h, by simp, by intro a ha b hb; simp at hb; subst hb; intro e; subst e; exact hk ha⟩

private theorem nodup_setMany (ps kvs : List (Str × Val)) (h : (ps.map Prod.fst).Nodup) :
    ((setMany ps kvs).map Prod.fst).Nodup := by
  induction kvs generalizing ps with
  | nil => exact h
  | cons kv t ih => exact ih _ (nodup_setKV kv.1 kv.2 ps h)

private theorem keys_dumbList (l : List (Str × Val)) : (dumbList l).map Prod.fst = l.map Prod.fst := by
  simp [dumbList, Function.comp_def]

private theorem nodup_step (s : State) (o : Op) (h : (s.params.map Prod.fst).Nodup) :
    ((step s o).1.params.map Prod.fst).Nodup := by
  cases o with
  | addpar n v a b st => exact nodup_setKV n v _ h
  | set n v => exact nodup_setKV n v _ h
  | setParameters d => simp only [step]; rw [keys_dumbList]; exact nodup_setMany _ _ h
  | setVarylist vl => simp only [step]; split <;> exact h
  | setVariableValues vs => simp only [step]; split; exact nodup_setMany _ _ h; exact h
  | updateOther obj => exact h
  | updateYourself obj => simpa [step, updateYourself, Function.comp_def] using h
  | load t => simp only [step]; rw [keys_dumbList, loadLines_eq]; exact nodup_setMany _ _ h

/-- After any history `get_parameters()` is a genuine dictionary: no name occurs twice, so its entries are
    exactly the pairs `(k, get k)`. -/
theorem get_parameters_is_dict (ops : List Op) :
    ((getParameters (run init ops).1).map Prod.fst).Nodup ∧
    ∀ k v, (k, v) ∈ getParameters (run init ops).1 ↔ get (run init ops).1 k = some v := by
  have hn : ∀ (s : State), (s.params.map Prod.fst).Nodup → ((run s ops).1.params.map Prod.fst).Nodup := by
    induction ops with
    | nil => exact fun s h => h
    | cons o os ih => exact fun s h => ih _ (nodup_step s o h)
  have h := hn init (by simp [init])
  refine ⟨h, fun k v => ⟨fun hm => ?_, lookup_mem k v _⟩⟩
  simp only [getParameters, Params.get] at *
  generalize (run init ops).1.params = l at h hm
  induction l with
  | nil => simp at hm
  | cons hd t ih =>
    obtain ⟨k0, v0⟩ := hd
    simp only [List.map_cons, List.nodup_cons] at h
    simp only [List.mem_cons] at hm
    rcases hm with hm | hm
    · cases hm; simp [lookup]
    · have : k0 ≠ k := by
        intro e; subst e
        exact h.1 (List.mem_map.mpr ⟨(k0, v), hm, rfl⟩)
      simp [lookup, this, ih h.2 hm]

end C19
