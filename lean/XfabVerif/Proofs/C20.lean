/-
Property C20, switch and guard sites (xfab/checks.py `_checkState`, xfab/__init__.py `CHECKS`, and the statements
`if CHECKS.activated: checks._check_X(...)` of tools.py, laue.py, symmetry.py).

* `Switch.*`  (XfabVerif/Model/Switch.lean) is the hand model of the `_checkState` object; it is run against the real
  `xfab.CHECKS` object on random assignment histories by harness/props/c20.py.
* `Guards.guardSites`, `Guards.otherUses` (XfabVerif/Gen/Guards.lean) are GENERATED from the source by
  harness/gen_guards.py on every run.

The numeric acceptance / rejection theorems of the three check functions are in XfabVerif/Proofs/C20Real.lean.
Together: an API call `f(x)` of the table executes `checks._check_X(x)` exactly when `CHECKS.activated` is true, the
switch is consulted nowhere else (`guard_only_use`), and `CHECKS.activated` is the last valid value assigned
(`switch_last_valid`).
-/
import XfabVerif.Model.Switch
import XfabVerif.Gen.Guards

set_option linter.unusedVariables false
set_option linter.unusedSimpArgs false

open Switch

namespace C20Switch

/-- the specification of "the last valid value assigned, initially `d`" -/
def lastValid (d : Bool) (vs : List PyVal) : Bool :=
  ((vs.filterMap PyVal.asBool?).getLast?).getD d

theorem assign_valid (s : State) (v : PyVal) (b : Bool) (h : v.asBool? = some b) :
    assign s v = (⟨b⟩, Outcome.ok) := by
  cases v <;> simp [PyVal.asBool?] at h <;> subst h <;> simp [assign]

theorem assign_invalid (s : State) (v : PyVal) (h : v.asBool? = none) :
    assign s v = (s, Outcome.valueError) := by
  cases v <;> simp [PyVal.asBool?] at h <;> simp [assign]

theorem run_eq (s : State) (vs : List PyVal) : run s vs = ⟨lastValid s.runChecks vs⟩ := by
  induction vs generalizing s with
  | nil => simp [run, lastValid]
  | cons v vs ih =>
    rw [run, ih]
    cases hv : v.asBool? with
    | none => simp [assign_invalid s v hv, lastValid, List.filterMap_cons, hv]
    | some b =>
      simp [assign_valid s v b hv, lastValid, List.filterMap_cons, hv, List.getLast?_cons]

/-- the six API functions of tools / laue with their check, as (function, check, argument expression) -/
def apiChecks : List (String × String × String) :=
  [("u_to_euler", "_check_rotation_matrix", "U"),
   ("u_to_rod", "_check_rotation_matrix", "U"),
   ("u_to_ubi", "_check_rotation_matrix", "U"),
   ("ubi_to_u", "_check_ubi_matrix", "ubi"),
   ("ubi_to_u_and_eps", "_check_rotation_matrix", "U"),
   ("euler_to_u", "_check_euler_angles", "phi1, PHI, phi2"),
   ("ub_to_u_b", "_check_rotation_matrix", "U")]

/-- every guard the property needs: the seven APIs in both modules and the two arguments of `symmetry.Umis` -/
def expectedSites : List (String × String × String × String) :=
  (["tools", "laue"].flatMap fun m => apiChecks.map fun (f, c, a) => (m, f, c, a)) ++
  [("symmetry", "Umis", "_check_rotation_matrix", "umat_1"),
   ("symmetry", "Umis", "_check_rotation_matrix", "umat_2")]

end C20Switch

open C20Switch

/-- C20 (switch): after ANY sequence of assignments (valid or invalid values, exceptions caught) to a fresh
`CHECKS` object, `CHECKS.activated` is the last valid value (`True`/`False` object) assigned, `True` if there was none. -/
theorem switch_last_valid (vs : List PyVal) :
    activated (run init vs) = ((vs.filterMap PyVal.asBool?).getLast?).getD true := by
  rw [run_eq]; simp [activated, debug, init, lastValid]

/-- C20 (switch), from any state: the same statement for an object that already has a history. -/
theorem switch_last_valid_from (s : State) (vs : List PyVal) :
    activated (run s vs) = ((vs.filterMap PyVal.asBool?).getLast?).getD (activated s) := by
  rw [run_eq]; simp [activated, debug, lastValid]

/-- C20 (switch): anything that is not the object `True` or the object `False` (None, 0, 1, 1.0, "True",
numpy.True_, ...) raises ValueError and leaves the state unchanged. -/
theorem switch_invalid_unchanged (s : State) (v : PyVal) (h1 : v ≠ PyVal.pyTrue) (h2 : v ≠ PyVal.pyFalse) :
    assign s v = (s, Outcome.valueError) := by
  simp [assign, h1, h2]

/-- C20 (switch): the setter raises exactly for the values that are neither `True` nor `False`;
`True`/`False` are stored and read back by `activated`. -/
theorem switch_accepts_iff (s : State) (v : PyVal) :
    ((assign s v).2 = Outcome.ok ↔ (v = PyVal.pyTrue ∨ v = PyVal.pyFalse)) ∧
    (assign s PyVal.pyTrue = (⟨true⟩, Outcome.ok)) ∧ (assign s PyVal.pyFalse = (⟨false⟩, Outcome.ok)) ∧
    activated ⟨true⟩ = true ∧ activated ⟨false⟩ = false := by
  refine ⟨?_, by simp [assign], by simp [assign], by decide, by decide⟩
  cases v <;> simp [assign]

/-- C20 (switch): the trace printed by the driver — outcome `ok` exactly on valid values, and the value read back
after each step is the last valid value so far. -/
theorem switch_trace (s : State) (vs : List PyVal) :
    (trace s vs).length = vs.length ∧
    ∀ k (hk : k < vs.length), ∀ x, (trace s vs)[k]? = some x →
      (x.1 = Outcome.ok ↔ (vs[k].asBool?).isSome) ∧ x.2 = lastValid (activated s) (vs.take (k + 1)) := by
  induction vs generalizing s with
  | nil => simp [trace]
  | cons v vs ih =>
    refine ⟨by simp [trace, (ih _).1], ?_⟩
    intro k hk x hx
    cases k with
    | zero =>
      simp [trace] at hx
      subst hx
      cases hv : v.asBool? with
      | none => simp [assign_invalid s v hv, lastValid, hv, activated, debug]
      | some b => simp [assign_valid s v b hv, lastValid, hv, activated, debug]
    | succ k =>
      simp only [trace, List.getElem?_cons_succ] at hx
      have hk' : k < vs.length := by simpa using hk
      have := (ih (assign s v).1).2 k hk' x hx
      refine ⟨by simpa using this.1, ?_⟩
      rw [this.2]
      cases hv : v.asBool? with
      | none => simp [assign_invalid s v hv, lastValid, hv, List.filterMap_cons]
      | some b =>
        simp [assign_valid s v b hv, lastValid, hv, List.filterMap_cons, List.getLast?_cons, activated, debug]

/-- C20 (guards): in the generated table of guard sites each of u_to_euler, u_to_rod, u_to_ubi calls
`_check_rotation_matrix(U)`, ubi_to_u calls `_check_ubi_matrix(ubi)`, ubi_to_u_and_eps and ub_to_u_b call
`_check_rotation_matrix(U)` (on the computed U), euler_to_u calls `_check_euler_angles(phi1, PHI, phi2)` — in both
tools and laue — and symmetry.Umis calls `_check_rotation_matrix` on both of its arguments; each under
`if CHECKS.activated:`. -/
theorem guard_table_complete : ∀ e ∈ expectedSites, e ∈ Guards.guardSites := by
  decide

/-- C20 (guards): the names `CHECKS` / `checks` (and `.activated`, `._check_*`) occur in tools.py, laue.py,
symmetry.py ONLY in the two imports and in statements `if CHECKS.activated: <check calls>`: with the switch off no
check function is ever reached, with the switch on nothing else depends on it. -/
theorem guard_only_use : Guards.otherUses = [] := by
  decide

/-- C20 (guards): every guard site calls one of the three check functions proved about in C20Real. -/
theorem guard_checks_known : ∀ e ∈ Guards.guardSites,
    e.2.2.1 ∈ ["_check_rotation_matrix", "_check_euler_angles", "_check_ubi_matrix"] := by
  decide

/-- the hypotheses are satisfiable on a non-trivial history: True, 1, False, numpy.True_, None leaves the switch off -/
example : activated (run init [.pyTrue, .int 1, .pyFalse, .npBool true, .pyNone]) = false := by
  rw [switch_last_valid]; decide
