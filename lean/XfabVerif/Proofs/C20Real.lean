/-
C20 (numeric part): the input checks of xfab.checks
  `_check_rotation_matrix`, `_check_euler_angles`, `_check_ubi_matrix`
(`some ()` = accepted, `none` = raises ValueError).
-/
import XfabVerif.Gen.ChecksReal
import XfabVerif.Spec.Basic

set_option linter.unusedVariables false
set_option linter.style.longLine false
set_option linter.unusedSimpArgs false

open Matrix Spec

noncomputable section

namespace C20

/-- the nested `if`s of `_check_rotation_matrix` as one conjunction -/
lemma rot_accept_iff_conj (U : Matrix (Fin 3) (Fin 3) ℝ) :
    Checks._check_rotation_matrix U = some () ↔
      |(Uᵀ * U) 0 0 - 1| ≤ (1e-6 : ℝ) + (1e-5 : ℝ) ∧ |(Uᵀ * U) 0 1| ≤ (1e-6 : ℝ) ∧
      |(Uᵀ * U) 0 2| ≤ (1e-6 : ℝ) ∧ |(Uᵀ * U) 1 0| ≤ (1e-6 : ℝ) ∧
      |(Uᵀ * U) 1 1 - 1| ≤ (1e-6 : ℝ) + (1e-5 : ℝ) ∧ |(Uᵀ * U) 1 2| ≤ (1e-6 : ℝ) ∧
      |(Uᵀ * U) 2 0| ≤ (1e-6 : ℝ) ∧ |(Uᵀ * U) 2 1| ≤ (1e-6 : ℝ) ∧
      |(Uᵀ * U) 2 2 - 1| ≤ (1e-6 : ℝ) + (1e-5 : ℝ) ∧
      |U.det - 1| ≤ (1e-8 : ℝ) + (1e-5 : ℝ) := by
  -- unfold + zeta-reduce (tolerates `UᵀU` being bound to a name), then split whatever if-tree is there
  simp only [Checks._check_rotation_matrix]
  split_ifs <;> simp_all

/-- entrywise bound of a 3×3 product -/
lemma entry_mul_bound (A B : Matrix (Fin 3) (Fin 3) ℝ) (α β : ℝ)
    (hA : ∀ i j, |A i j| ≤ α) (hB : ∀ i j, |B i j| ≤ β) (i j : Fin 3) :
    |(A * B) i j| ≤ 3 * α * β := by
  have hα : 0 ≤ α := (abs_nonneg _).trans (hA 0 0)
  have h : ∀ k, |A i k * B k j| ≤ α * β := fun k => by
    rw [abs_mul]; exact mul_le_mul (hA i k) (hB k j) (abs_nonneg _) hα
  rw [Matrix.mul_apply, Fin.sum_univ_three]
  have t1 := abs_add_le (A i 0 * B 0 j + A i 1 * B 1 j) (A i 2 * B 2 j)
  have t2 := abs_add_le (A i 0 * B 0 j) (A i 1 * B 1 j)
  linarith [h 0, h 1, h 2]

/-- the entries of an orthonormal matrix lie in `[-1, 1]` -/
lemma entry_abs_le_one {R : Matrix (Fin 3) (Fin 3) ℝ} (hR : Rᵀ * R = 1) (i j : Fin 3) :
    |R i j| ≤ 1 := by
  have h := congrFun (congrFun hR j) j
  rw [Matrix.mul_apply, Fin.sum_univ_three] at h
  simp only [Matrix.transpose_apply, Matrix.one_apply_eq] at h
  apply abs_le_one_iff_mul_self_le_one.mpr
  fin_cases i <;> simp only [Fin.zero_eta, Fin.mk_one, Fin.reduceFinMk] <;>
    nlinarith [mul_self_nonneg (R 0 j), mul_self_nonneg (R 1 j), mul_self_nonneg (R 2 j)]

/-- `|det (1 + F) - 1| ≤ 3φ + 6φ² + 6φ³` when all `|F i j| ≤ φ` -/
lemma det_one_add_bound (F : Matrix (Fin 3) (Fin 3) ℝ) (φ : ℝ) (hF : ∀ i j, |F i j| ≤ φ) :
    |(1 + F).det - 1| ≤ 3 * φ + 6 * φ ^ 2 + 6 * φ ^ 3 := by
  have hφ : 0 ≤ φ := (abs_nonneg _).trans (hF 0 0)
  have key : (1 + F).det - 1 =
      F 0 0 + F 1 1 + F 2 2 + (F 0 0 * F 1 1 - F 0 1 * F 1 0) + (F 0 0 * F 2 2 - F 0 2 * F 2 0)
        + (F 1 1 * F 2 2 - F 1 2 * F 2 1)
        + (F 0 0 * F 1 1 * F 2 2 - F 0 0 * F 1 2 * F 2 1 - F 0 1 * F 1 0 * F 2 2
            + F 0 1 * F 1 2 * F 2 0 + F 0 2 * F 1 0 * F 2 1 - F 0 2 * F 1 1 * F 2 0) := by
    simp [Matrix.det_fin_three]; ring
  have p2 : ∀ a b c d : Fin 3, |F a b * F c d| ≤ φ ^ 2 := fun a b c d => by
    rw [abs_mul, pow_two]; exact mul_le_mul (hF a b) (hF c d) (abs_nonneg _) hφ
  have p3 : ∀ a b c d e f : Fin 3, |F a b * F c d * F e f| ≤ φ ^ 3 := fun a b c d e f => by
    rw [abs_mul, pow_succ]
    exact mul_le_mul (p2 a b c d) (hF e f) (abs_nonneg _) (by positivity)
  rw [key, abs_le]
  have a00 := abs_le.mp (hF 0 0); have a11 := abs_le.mp (hF 1 1); have a22 := abs_le.mp (hF 2 2)
  have b1 := abs_le.mp (p2 0 0 1 1); have b2 := abs_le.mp (p2 0 1 1 0)
  have b3 := abs_le.mp (p2 0 0 2 2); have b4 := abs_le.mp (p2 0 2 2 0)
  have b5 := abs_le.mp (p2 1 1 2 2); have b6 := abs_le.mp (p2 1 2 2 1)
  have c1 := abs_le.mp (p3 0 0 1 1 2 2); have c2 := abs_le.mp (p3 0 0 1 2 2 1)
  have c3 := abs_le.mp (p3 0 1 1 0 2 2); have c4 := abs_le.mp (p3 0 1 1 2 2 0)
  have c5 := abs_le.mp (p3 0 2 1 0 2 1); have c6 := abs_le.mp (p3 0 2 1 1 2 0)
  constructor <;> linarith

/-- `(R+E)ᵀ(R+E) − 1 = RᵀE + EᵀR + EᵀE` entrywise, for orthonormal `R` -/
lemma gram_perturb_entry {R : Matrix (Fin 3) (Fin 3) ℝ} (hR : Rᵀ * R = 1) (E : Matrix (Fin 3) (Fin 3) ℝ)
    (i j : Fin 3) :
    ((R + E)ᵀ * (R + E)) i j - (1 : Matrix (Fin 3) (Fin 3) ℝ) i j
      = (Rᵀ * E) i j + (Eᵀ * R) i j + (Eᵀ * E) i j := by
  have hmat : (R + E)ᵀ * (R + E) - 1 = Rᵀ * E + Eᵀ * R + Eᵀ * E := by
    rw [Matrix.transpose_add, Matrix.add_mul, Matrix.mul_add, Matrix.mul_add, hR]
    abel
  have := congrFun (congrFun hmat i) j
  simpa [Matrix.sub_apply, Matrix.add_apply] using this

end C20

open C20

/-! ### `_check_rotation_matrix` -/

/-- C20: exact characterisation of acceptance by `_check_rotation_matrix`:
`allclose(UᵀU, I, atol=1e-6, rtol=1e-5)` and `allclose(det U, 1)`. -/
theorem rot_accept_iff (U : Matrix (Fin 3) (Fin 3) ℝ) :
    Checks._check_rotation_matrix U = some () ↔
      (∀ i j, |(Uᵀ * U) i j - (1 : Matrix (Fin 3) (Fin 3) ℝ) i j|
          ≤ (1e-6 : ℝ) + (1e-5 : ℝ) * |(1 : Matrix (Fin 3) (Fin 3) ℝ) i j|) ∧
      |U.det - 1| ≤ (1e-8 : ℝ) + (1e-5 : ℝ) := by
  rw [rot_accept_iff_conj]
  simp only [Fin.forall_fin_succ, Fin.forall_fin_zero_pi, Matrix.one_apply]
  simp [Fin.succ]
  tauto

/-- C20: a matrix that is not orthonormal within the `allclose` tolerance (some off-diagonal entry of
`UᵀU` beyond 1e-6, or some diagonal entry off 1 by more than 1.1e-5) or whose determinant differs from
+1 by more than 1.001e-5 raises ValueError. -/
theorem rot_reject_sound (U : Matrix (Fin 3) (Fin 3) ℝ)
    (h : (∃ i j, i ≠ j ∧ (1e-6 : ℝ) < |(Uᵀ * U) i j|) ∨ (∃ i, (1.1e-5 : ℝ) < |(Uᵀ * U) i i - 1|)
      ∨ (1.001e-5 : ℝ) < |U.det - 1|) :
    Checks._check_rotation_matrix U = none := by
  cases hc : Checks._check_rotation_matrix U with
  | none => rfl
  | some u =>
    exfalso
    obtain ⟨hall, hdet⟩ := (rot_accept_iff U).mp hc
    rcases h with ⟨i, j, hij, hlt⟩ | ⟨i, hlt⟩ | hlt
    · have := hall i j
      rw [Matrix.one_apply_ne hij] at this
      norm_num at this hlt
      linarith
    · have := hall i i
      rw [Matrix.one_apply_eq] at this
      norm_num at this hlt
      linarith
    · norm_num at hdet hlt
      linarith

/-- C20: any matrix with negative determinant (in particular every improper rotation / reflection)
raises ValueError. -/
theorem rot_reject_det_neg (U : Matrix (Fin 3) (Fin 3) ℝ) (h : U.det < 0) :
    Checks._check_rotation_matrix U = none := by
  apply rot_reject_sound
  right; right
  rw [abs_of_neg (by linarith)]
  norm_num
  linarith

/-- C20: an improper orthonormal matrix (`det = -1`) raises ValueError. -/
theorem rot_reject_improper (U : Matrix (Fin 3) (Fin 3) ℝ) (h : U.det = -1) :
    Checks._check_rotation_matrix U = none :=
  rot_reject_det_neg U (by rw [h]; norm_num)

example : Checks._check_rotation_matrix (!![1, 0, 0; 0, 1, 0; 0, 0, -1] : Matrix (Fin 3) (Fin 3) ℝ) = none := by
  apply rot_reject_improper
  simp [Matrix.det_fin_three]

/-- C20: every exact proper rotation is accepted. -/
theorem rot_accept_proper (U : Matrix (Fin 3) (Fin 3) ℝ) (hU : IsRot U) :
    Checks._check_rotation_matrix U = some () := by
  rw [rot_accept_iff, hU.1, hU.2]
  refine ⟨fun i j => ?_, ?_⟩
  · rw [sub_self, abs_zero]; positivity
  · norm_num

example (t : ℝ) : Checks._check_rotation_matrix (Rz t) = some () := rot_accept_proper _ (Rz_isRot t)

/-- C20 (general tolerance form): a proper rotation perturbed entrywise by at most `δ ≤ 1.6e-7`
is accepted. -/
theorem rot_accept_perturbed_of_le (R E : Matrix (Fin 3) (Fin 3) ℝ) (δ : ℝ) (hR : IsRot R)
    (hδ : δ ≤ (1.6e-7 : ℝ)) (hE : ∀ i j, |E i j| ≤ δ) :
    Checks._check_rotation_matrix (R + E) = some () := by
  have hδ0 : 0 ≤ δ := (abs_nonneg _).trans (hE 0 0)
  have hR1 : ∀ i j, |R i j| ≤ 1 := entry_abs_le_one hR.1
  have hRt1 : ∀ i j, |Rᵀ i j| ≤ 1 := fun i j => hR1 j i
  have hEt : ∀ i j, |Eᵀ i j| ≤ δ := fun i j => hE j i
  have hRR : R * Rᵀ = 1 := mul_eq_one_comm.mp hR.1
  rw [rot_accept_iff]
  constructor
  · intro i j
    have hent := gram_perturb_entry hR.1 E i j
    rw [hent]
    have b1 := entry_mul_bound Rᵀ E 1 δ hRt1 hE i j
    have b2 := entry_mul_bound Eᵀ R δ 1 hEt hR1 i j
    have b3 := entry_mul_bound Eᵀ E δ δ hEt hE i j
    have t1 := abs_add_le ((Rᵀ * E) i j + (Eᵀ * R) i j) ((Eᵀ * E) i j)
    have t2 := abs_add_le ((Rᵀ * E) i j) ((Eᵀ * R) i j)
    have hq : 3 * δ * δ ≤ 3 * (1.6e-7 : ℝ) * δ := by nlinarith
    have hpos : 0 ≤ (1e-5 : ℝ) * |(1 : Matrix (Fin 3) (Fin 3) ℝ) i j| := by positivity
    norm_num at hδ hq ⊢
    linarith
  · have hfac : R + E = R * (1 + Rᵀ * E) := by
      rw [Matrix.mul_add, Matrix.mul_one, ← Matrix.mul_assoc, hRR, Matrix.one_mul]
    rw [hfac, Matrix.det_mul, hR.2, one_mul]
    have hF : ∀ i j, |(Rᵀ * E) i j| ≤ 3 * δ := fun i j => by
      have := entry_mul_bound Rᵀ E 1 δ hRt1 hE i j
      linarith
    have hb := det_one_add_bound (Rᵀ * E) (3 * δ) hF
    have h2 : (3 * δ) ^ 2 ≤ (3 * (1.6e-7 : ℝ)) ^ 2 := by
      apply pow_le_pow_left₀ (by linarith); linarith
    have h3 : (3 * δ) ^ 3 ≤ (3 * (1.6e-7 : ℝ)) ^ 3 := by
      apply pow_le_pow_left₀ (by linarith); linarith
    norm_num at hδ h2 h3 ⊢
    linarith

/-- C20: a proper rotation perturbed entrywise by at most 1e-7 (this covers a rotation matrix rounded
entrywise to float32, whose entries in [-1,1] move by at most 2⁻²⁴ ≈ 6e-8) is never rejected. -/
theorem rot_accept_perturbed (R E : Matrix (Fin 3) (Fin 3) ℝ) (hR : IsRot R)
    (hE : ∀ i j, |E i j| ≤ (1e-7 : ℝ)) :
    Checks._check_rotation_matrix (R + E) = some () :=
  rot_accept_perturbed_of_le R E 1e-7 hR (by norm_num) hE

example (t : ℝ) :
    Checks._check_rotation_matrix (Rz t + !![1e-7, -1e-7, 0; 5e-8, 0, 1e-7; 0, -3e-8, 1e-7]) = some () := by
  apply rot_accept_perturbed _ _ (Rz_isRot t)
  intro i j
  fin_cases i <;> fin_cases j <;> norm_num [abs_le]

/-- C20 (clearly invalid input, scaling): a proper rotation scaled by `1 + ε` with `1e-3 ≤ |ε| ≤ 1`
raises ValueError. -/
theorem rot_reject_scaled (R : Matrix (Fin 3) (Fin 3) ℝ) (ε : ℝ) (hR : IsRot R)
    (hε : (1e-3 : ℝ) ≤ |ε|) (hε1 : |ε| ≤ 1) :
    Checks._check_rotation_matrix ((1 + ε) • R) = none := by
  apply rot_reject_sound
  right; left
  refine ⟨0, ?_⟩
  have h : (((1 + ε) • R)ᵀ * ((1 + ε) • R)) 0 0 - 1 = ε * (2 + ε) := by
    rw [Matrix.transpose_smul, Matrix.smul_mul, Matrix.mul_smul, hR.1]
    simp [Matrix.smul_apply]; ring
  rw [h, abs_mul]
  have h2 : 1 ≤ |2 + ε| := by
    have := abs_le.mp hε1
    rw [abs_of_nonneg (by linarith)]; linarith
  have : (1e-3 : ℝ) * 1 ≤ |ε| * |2 + ε| := mul_le_mul hε h2 (by norm_num) (abs_nonneg _)
  norm_num at this ⊢
  linarith

/-- C20 (clearly invalid input, one entry): a proper rotation with ONE entry `(i, j)` perturbed by
`ε`, `1e-3 ≤ |ε| ≤ 1`, raises ValueError. -/
theorem rot_reject_single_entry (R E : Matrix (Fin 3) (Fin 3) ℝ) (i j : Fin 3) (ε : ℝ) (hR : IsRot R)
    (hε : (1e-3 : ℝ) ≤ |ε|) (hε1 : |ε| ≤ 1)
    (hEij : E i j = ε) (hE0 : ∀ k l, ¬(k = i ∧ l = j) → E k l = 0) :
    Checks._check_rotation_matrix (R + E) = none := by
  cases hc : Checks._check_rotation_matrix (R + E) with
  | none => rfl
  | some u =>
    exfalso
    obtain ⟨hall, -⟩ := (rot_accept_iff _).mp hc
    have hRR : R * Rᵀ = 1 := mul_eq_one_comm.mp hR.1
    have s1 : ∀ l m, (Rᵀ * E) l m = if m = j then R i l * ε else 0 := by
      intro l m
      rw [Matrix.mul_apply]; simp only [Matrix.transpose_apply]
      split_ifs with h
      · subst h
        rw [Finset.sum_eq_single i, hEij]
        · intro k _ hk; rw [hE0 k m (by tauto), mul_zero]
        · intro h; exact absurd (Finset.mem_univ i) h
      · apply Finset.sum_eq_zero; intro k _; rw [hE0 k m (by tauto), mul_zero]
    have s2 : ∀ l m, (Eᵀ * R) l m = if l = j then ε * R i m else 0 := by
      intro l m
      rw [Matrix.mul_apply]; simp only [Matrix.transpose_apply]
      split_ifs with h
      · subst h
        rw [Finset.sum_eq_single i, hEij]
        · intro k _ hk; rw [hE0 k l (by tauto), zero_mul]
        · intro h; exact absurd (Finset.mem_univ i) h
      · apply Finset.sum_eq_zero; intro k _; rw [hE0 k l (by tauto), zero_mul]
    have s3 : ∀ l m, (Eᵀ * E) l m = if l = j ∧ m = j then ε * ε else 0 := by
      intro l m
      rw [Matrix.mul_apply]; simp only [Matrix.transpose_apply]
      split_ifs with h
      · rw [h.1, h.2, Finset.sum_eq_single i, hEij]
        · intro k _ hk; rw [hE0 k j (by tauto), zero_mul]
        · intro h; exact absurd (Finset.mem_univ i) h
      · apply Finset.sum_eq_zero; intro k _
        by_cases hl : l = j
        · rw [hE0 k m (by tauto), mul_zero]
        · rw [hE0 k l (by tauto), zero_mul]
    -- off-diagonal entries (j, m) of the Gram matrix are `ε * R i m`
    have hoff : ∀ m, m ≠ j → |ε * R i m| ≤ (1e-6 : ℝ) := by
      intro m hm
      have h := hall j m
      rw [gram_perturb_entry hR.1 E j m, s1, s2, s3, Matrix.one_apply_ne (Ne.symm hm)] at h
      simpa [hm] using h
    -- the diagonal entry (j, j) minus one is `2 ε R i j + ε²`
    have hdiag : |2 * ε * R i j + ε * ε| ≤ (1.1e-5 : ℝ) := by
      have h := hall j j
      rw [gram_perturb_entry hR.1 E j j, s1, s2, s3, Matrix.one_apply_eq] at h
      simp only [if_true, and_self] at h
      have e : R i j * ε + ε * R i j + ε * ε = 2 * ε * R i j + ε * ε := by ring
      rw [e] at h
      norm_num at h ⊢
      exact h
    -- row i of R has unit length
    have hrow : R i 0 * R i 0 + R i 1 * R i 1 + R i 2 * R i 2 = 1 := by
      have h := congrFun (congrFun hRR i) i
      rw [Matrix.mul_apply, Fin.sum_univ_three] at h
      simpa [Matrix.transpose_apply] using h
    have hεsq : (1e-6 : ℝ) ≤ ε * ε := by
      have : (1e-3 : ℝ) * 1e-3 ≤ |ε| * |ε| := mul_le_mul hε hε (by norm_num) (abs_nonneg _)
      rw [abs_mul_abs_self] at this
      norm_num at this ⊢; linarith
    have hsmall : ∀ m, m ≠ j → R i m * R i m ≤ (1e-6 : ℝ) := by
      intro m hm
      have h := hoff m hm
      have h2 : |ε * R i m| * |ε * R i m| ≤ (1e-6 : ℝ) * 1e-6 :=
        mul_le_mul h h (abs_nonneg _) (by norm_num)
      rw [abs_mul_abs_self] at h2
      have h3 := mul_nonneg (sub_nonneg.mpr hεsq) (mul_self_nonneg (R i m))
      norm_num at h2 h3 hεsq ⊢
      nlinarith
    have hbig : 1 - (2e-6 : ℝ) ≤ R i j * R i j := by
      have hj : j = 0 ∨ j = 1 ∨ j = 2 := by fin_cases j <;> decide
      rcases hj with rfl | rfl | rfl
      · have h1 := hsmall 1 (by decide); have h2 := hsmall 2 (by decide)
        norm_num at h1 h2 hrow ⊢; linarith
      · have h1 := hsmall 0 (by decide); have h2 := hsmall 2 (by decide)
        norm_num at h1 h2 hrow ⊢; linarith
      · have h1 := hsmall 0 (by decide); have h2 := hsmall 1 (by decide)
        norm_num at h1 h2 hrow ⊢; linarith
    -- hence |R i j| ≥ 0.999 and |ε| · |2 R i j + ε| ≥ 1e-3 · 0.998, contradiction
    have hx : (0.999 : ℝ) ≤ |R i j| := by
      by_contra hlt
      replace hlt := not_le.mp hlt
      have : |R i j| * |R i j| < 0.999 * 0.999 :=
        mul_lt_mul'' hlt hlt (abs_nonneg _) (abs_nonneg _)
      rw [abs_mul_abs_self] at this
      norm_num at this hbig
      linarith
    have hfac : 2 * ε * R i j + ε * ε = ε * (2 * R i j + ε) := by ring
    rw [hfac, abs_mul] at hdiag
    have h2 : (0.998 : ℝ) ≤ |2 * R i j + ε| := by
      have t := abs_sub_abs_le_abs_sub (2 * R i j) (-ε)
      rw [sub_neg_eq_add, abs_neg, abs_mul, abs_two] at t
      norm_num at hx ⊢
      linarith
    have : (1e-3 : ℝ) * 0.998 ≤ |ε| * |2 * R i j + ε| := mul_le_mul hε h2 (by norm_num) (abs_nonneg _)
    norm_num at this hdiag
    linarith

example (t : ℝ) : Checks._check_rotation_matrix (Rz t + !![0, 0, 0; 0, 0, 1e-3; 0, 0, 0]) = none := by
  apply rot_reject_single_entry _ _ 1 2 1e-3 (Rz_isRot t)
  · norm_num [abs_of_pos]
  · norm_num [abs_of_pos]
  · simp
  · intro k l h
    fin_cases k <;> fin_cases l <;> simp at h ⊢

/-! ### `_check_euler_angles` -/

/-- C20: `_check_euler_angles` accepts exactly the triples with all three angles in `[0, 2π]`. -/
theorem euler_accept_iff (a b c : ℝ) :
    Checks._check_euler_angles a b c = some () ↔
      (0 ≤ a ∧ a ≤ 2 * Real.pi) ∧ (0 ≤ b ∧ b ≤ 2 * Real.pi) ∧ (0 ≤ c ∧ c ≤ 2 * Real.pi) := by
  -- unfold + zeta-reduce (tolerates `2*π` being bound to a name), normalise `π*2`/`≥` by simp (no failure
  -- when the pattern is absent, unlike `rw`), then split whatever if-tree is there
  simp only [Checks._check_euler_angles, mul_comm Real.pi 2, ge_iff_le]
  split_ifs <;> simp_all

/-- C20: an Euler angle outside `[0, 2π]` raises ValueError. -/
theorem euler_reject (a b c : ℝ)
    (h : a < 0 ∨ 2 * Real.pi < a ∨ b < 0 ∨ 2 * Real.pi < b ∨ c < 0 ∨ 2 * Real.pi < c) :
    Checks._check_euler_angles a b c = none := by
  cases hc : Checks._check_euler_angles a b c with
  | none => rfl
  | some u =>
    exfalso
    obtain ⟨⟨h1, h2⟩, ⟨h3, h4⟩, h5, h6⟩ := (euler_accept_iff a b c).mp hc
    rcases h with h | h | h | h | h | h <;> linarith

example : Checks._check_euler_angles 0 Real.pi (2 * Real.pi) = some () := by
  rw [euler_accept_iff]
  have := Real.pi_pos
  refine ⟨⟨le_rfl, ?_⟩, ⟨?_, ?_⟩, ?_, le_rfl⟩ <;> linarith

/-! ### `_check_ubi_matrix` -/

/-- the triple product tested by `_check_ubi_matrix` is the determinant -/
theorem ubi_triple_eq_det (M : Matrix (Fin 3) (Fin 3) ℝ) :
    (M 2) ⬝ᵥ (crossProduct (M 0) (M 1)) = M.det := by
  simp [cross_apply, dotProduct, Fin.sum_univ_three, Matrix.det_fin_three]
  ring

/-- C20: `_check_ubi_matrix` accepts exactly when the triple product `row2 · (row0 × row1)`, i.e. the
determinant, is non-negative (right-handed or degenerate). -/
theorem ubi_accept_iff (M : Matrix (Fin 3) (Fin 3) ℝ) :
    Checks._check_ubi_matrix M = some () ↔ 0 ≤ M.det := by
  -- `simp only [f, ...]` unfolds and zeta-reduces any `let`s (however many / however named); the triple
  -- product is rewritten to `det` in either operand order of the dot product; the case analysis is on the
  -- sign of `det`, not on the syntactic shape of the `if`
  have hcomm : crossProduct (M 0) (M 1) ⬝ᵥ M 2 = M.det := by
    rw [dotProduct_comm]; exact ubi_triple_eq_det M
  simp only [Checks._check_ubi_matrix, ubi_triple_eq_det, hcomm, ge_iff_le, gt_iff_lt]
  rcases lt_or_ge M.det 0 with h | h
  · have h' : ¬ 0 ≤ M.det := not_le.mpr h
    simp [h, h']
  · have h' : ¬ M.det < 0 := not_lt.mpr h
    simp [h, h']

/-- C20: a left-handed UBI raises ValueError. -/
theorem ubi_reject_lefthanded (M : Matrix (Fin 3) (Fin 3) ℝ) (h : M.det < 0) :
    Checks._check_ubi_matrix M = none := by
  cases hc : Checks._check_ubi_matrix M with
  | none => rfl
  | some u => exact absurd ((ubi_accept_iff M).mp hc) (not_le.mpr h)

/-- C20: a right-handed UBI (positive determinant) is never rejected. -/
theorem ubi_accept_righthanded (M : Matrix (Fin 3) (Fin 3) ℝ) (h : 0 < M.det) :
    Checks._check_ubi_matrix M = some () :=
  (ubi_accept_iff M).mpr h.le

example : Checks._check_ubi_matrix (!![0, 1, 0; 1, 0, 0; 0, 0, 1] : Matrix (Fin 3) (Fin 3) ℝ) = none := by
  apply ubi_reject_lefthanded
  simp [Matrix.det_fin_three]
