/-
Vocabulary shared by the generated ℝ twins (`Gen/*Real.lean`) and the proofs.
Only the Mathlib modules actually needed are imported.
-/
import Mathlib.Analysis.SpecialFunctions.Trigonometric.Inverse
import Mathlib.Analysis.SpecialFunctions.Trigonometric.Arctan
import Mathlib.Analysis.SpecialFunctions.Complex.Arg
import Mathlib.Analysis.SpecialFunctions.Exp
import Mathlib.LinearAlgebra.Matrix.NonsingularInverse
import Mathlib.LinearAlgebra.Matrix.Notation
import Mathlib.LinearAlgebra.CrossProduct
import Mathlib.Tactic.Ring
import Mathlib.Tactic.FieldSimp
import Mathlib.Tactic.LinearCombination
import Mathlib.Tactic.Linarith
import Mathlib.Tactic.Positivity
import Mathlib.Tactic.FinCases
import Mathlib.Tactic.NormNum

namespace XR

/-- numpy's `arctan2(y, x)`: the argument of `x + i y` in (-π, π] (0 at the origin). -/
noncomputable def atan2 (y x : ℝ) : ℝ := Complex.arg ⟨x, y⟩

end XR
