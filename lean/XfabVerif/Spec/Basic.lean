/-
Shared hand-written specification vocabulary for the ℝ proofs.
-/
import XfabVerif.RealPrelude
open Matrix

noncomputable section
namespace Spec

/-- degrees → radians exactly as the code writes it (`x*pi/180`) -/
def rad (x : ℝ) : ℝ := x * Real.pi / 180

/-- Gram determinant factor `1 - ca² - cb² - cg² + 2 ca cb cg` of a cell -/
def gramD (cell : Fin 6 → ℝ) : ℝ :=
  1 - Real.cos (rad (cell 3)) ^ 2 - Real.cos (rad (cell 4)) ^ 2 - Real.cos (rad (cell 5)) ^ 2
    + 2 * Real.cos (rad (cell 3)) * Real.cos (rad (cell 4)) * Real.cos (rad (cell 5))

/-- a geometrically valid unit cell `[a, b, c, α, β, γ]` (angles in degrees) -/
structure ValidCell (cell : Fin 6 → ℝ) : Prop where
  a_pos : 0 < cell 0
  b_pos : 0 < cell 1
  c_pos : 0 < cell 2
  al : 0 < cell 3 ∧ cell 3 < 180
  be : 0 < cell 4 ∧ cell 4 < 180
  ga : 0 < cell 5 ∧ cell 5 < 180
  gram : 0 < gramD cell

/-- direct metric tensor of a cell -/
def metric (cell : Fin 6 → ℝ) : Matrix (Fin 3) (Fin 3) ℝ :=
  let a := cell 0; let b := cell 1; let c := cell 2
  let ca := Real.cos (rad (cell 3)); let cb := Real.cos (rad (cell 4)); let cg := Real.cos (rad (cell 5))
  !![a * a, a * b * cg, a * c * cb;
     a * b * cg, b * b, b * c * ca;
     a * c * cb, b * c * ca, c * c]

/-- elementary rotations (active, right-handed) -/
def Rx (t : ℝ) : Matrix (Fin 3) (Fin 3) ℝ :=
  !![1, 0, 0; 0, Real.cos t, -Real.sin t; 0, Real.sin t, Real.cos t]
def Ry (t : ℝ) : Matrix (Fin 3) (Fin 3) ℝ :=
  !![Real.cos t, 0, Real.sin t; 0, 1, 0; -Real.sin t, 0, Real.cos t]
def Rz (t : ℝ) : Matrix (Fin 3) (Fin 3) ℝ :=
  !![Real.cos t, -Real.sin t, 0; Real.sin t, Real.cos t, 0; 0, 0, 1]

/-- proper rotation: orthonormal with determinant +1 -/
def IsRot (U : Matrix (Fin 3) (Fin 3) ℝ) : Prop := Uᵀ * U = 1 ∧ U.det = 1

/-- upper triangular with positive diagonal -/
def IsUpperPos (B : Matrix (Fin 3) (Fin 3) ℝ) : Prop :=
  B 1 0 = 0 ∧ B 2 0 = 0 ∧ B 2 1 = 0 ∧ 0 < B 0 0 ∧ 0 < B 1 1 ∧ 0 < B 2 2

theorem sin_rad_pos {x : ℝ} (h : 0 < x ∧ x < 180) : 0 < Real.sin (rad x) := by
  unfold rad
  have hp := Real.pi_pos
  apply Real.sin_pos_of_pos_of_lt_pi
  · have : 0 < x * Real.pi := mul_pos h.1 hp
    linarith
  · have : x * Real.pi < 180 * Real.pi := mul_lt_mul_of_pos_right h.2 hp
    linarith

theorem rad_mem {x : ℝ} (h : 0 < x ∧ x < 180) : 0 < rad x ∧ rad x < Real.pi := by
  unfold rad
  have hp := Real.pi_pos
  constructor
  · have : 0 < x * Real.pi := mul_pos h.1 hp
    linarith
  · have : x * Real.pi < 180 * Real.pi := mul_lt_mul_of_pos_right h.2 hp
    linarith

theorem Rx_isRot (t : ℝ) : IsRot (Rx t) := by
  constructor
  · ext i j; fin_cases i <;> fin_cases j <;>
      simp [Rx, Matrix.mul_apply, Fin.sum_univ_three] <;>
      nlinarith [Real.sin_sq_add_cos_sq t]
  · simp [Rx, Matrix.det_fin_three]; nlinarith [Real.sin_sq_add_cos_sq t]

theorem Ry_isRot (t : ℝ) : IsRot (Ry t) := by
  constructor
  · ext i j; fin_cases i <;> fin_cases j <;>
      simp [Ry, Matrix.mul_apply, Fin.sum_univ_three] <;>
      nlinarith [Real.sin_sq_add_cos_sq t]
  · simp [Ry, Matrix.det_fin_three]; nlinarith [Real.sin_sq_add_cos_sq t]

theorem Rz_isRot (t : ℝ) : IsRot (Rz t) := by
  constructor
  · ext i j; fin_cases i <;> fin_cases j <;>
      simp [Rz, Matrix.mul_apply, Fin.sum_univ_three] <;>
      nlinarith [Real.sin_sq_add_cos_sq t]
  · simp [Rz, Matrix.det_fin_three]; nlinarith [Real.sin_sq_add_cos_sq t]

theorem IsRot.mul {U V : Matrix (Fin 3) (Fin 3) ℝ} (hU : IsRot U) (hV : IsRot V) : IsRot (U * V) := by
  constructor
  · rw [Matrix.transpose_mul, Matrix.mul_assoc, ← Matrix.mul_assoc Uᵀ, hU.1, Matrix.one_mul, hV.1]
  · rw [Matrix.det_mul, hU.2, hV.2, one_mul]

theorem IsRot.transpose {U : Matrix (Fin 3) (Fin 3) ℝ} (hU : IsRot U) : IsRot Uᵀ := by
  constructor
  · rw [Matrix.transpose_transpose]
    exact mul_eq_one_comm.mp hU.1
  · rw [Matrix.det_transpose]; exact hU.2

end Spec
